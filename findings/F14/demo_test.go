package action

import (
	"testing"

	release "helm.sh/helm/v4/pkg/release/v1"
)

// F14 (recorded, not repaired): history v1 deployed, v2 failed (a failed upgrade leaves v1 deployed);
// `install --replace` then creates v3 and marks it deployed while v1 is still deployed.
func TestVerifF14ReplaceLeavesTwoDeployed(t *testing.T) {
	instAction := installAction(t)
	instAction.Replace = true
	instAction.ReleaseName = "twice"
	r1 := namedReleaseStub("twice", release.StatusDeployed)
	r1.Version = 1
	r1.Namespace = "spaced"
	r2 := namedReleaseStub("twice", release.StatusFailed)
	r2.Version = 2
	r2.Namespace = "spaced"
	for _, r := range []*release.Release{r1, r2} {
		if err := instAction.cfg.Releases.Create(r); err != nil {
			t.Fatal(err)
		}
	}
	if _, err := instAction.Run(buildChart(), map[string]interface{}{}); err != nil {
		t.Fatal(err)
	}
	hist, _ := instAction.cfg.Releases.History("twice")
	deployed := 0
	for _, r := range hist {
		if r.Info.Status == release.StatusDeployed {
			deployed++
		}
	}
	if deployed != 1 {
		t.Fatalf("%d revisions are marked deployed after install --replace (want 1)", deployed)
	}
}
